"""Materialising abstract directory layouts, running the real `bkl` on them and the model on the abstract layout."""
import os
import shutil
import formats
from cli import run_cli, Workdir, pmap, bad_shape
from common import run_model, mktemp_dir
from wire import to_wire, from_wire


def materialise(root, layout):
    """layout: {relpath: {"fmt","docs"} | {"link": target} | {"raw": str} | {"dir": True}}"""
    for rel, node in layout.items():
        p = os.path.join(root, rel)
        os.makedirs(os.path.dirname(p), exist_ok=True)
        if "link" in node:
            if os.path.lexists(p):
                os.unlink(p)
            os.symlink(node["link"].replace("{W}", root), p)
        elif "dir" in node:
            os.makedirs(p, exist_ok=True)
        elif "raw" in node:
            with open(p, "w") as fh:
                fh.write(node["raw"])
        else:
            with open(p, "w") as fh:
                kw = dict(node.get("kw", {}))
                if "bool_case_seed" in kw:
                    import random
                    kw["bool_case"] = random.Random(kw.pop("bool_case_seed"))
                fh.write(formats.dump(node["fmt"], node["docs"], **kw))


def model_entries(root, layout):
    ents = []
    seen = set()
    # ancestors of the work directory exist as directories
    parts = [x for x in root.split("/") if x]
    for i in range(1, len(parts) + 1):
        ents.append({"path": "/" + "/".join(parts[:i]), "dir": True})
        seen.add("/" + "/".join(parts[:i]))
    for rel, node in layout.items():
        comps = rel.split("/")
        for i in range(1, len(comps)):
            d = root + "/" + "/".join(comps[:i])
            if d not in seen:
                seen.add(d)
                ents.append({"path": d, "dir": True})
        p = root + "/" + rel
        if "link" in node:
            ents.append({"path": p, "link": node["link"].replace("{W}", root)})
        elif "dir" in node:
            if p not in seen:
                seen.add(p)
                ents.append({"path": p, "dir": True})
        elif "raw" in node:
            ents.append({"path": p, "error": "unmarshal"})
        else:
            ents.append({"path": p, "docs": [to_wire(d) for d in node["docs"]]})
    return ents


def cli_args(opts):
    a = []
    if opts.get("format"):
        a += ["-f", opts["format"]]
    if opts.get("out"):
        a += ["-o", opts["out"]]
    if opts.get("root"):
        a += ["-r", opts["root"]]
    if opts.get("skipParent"):
        a += ["-P"]
    return a + list(opts.get("inputs", []))


def run_case(case, keep=None, tool="bkl", mutate=None):
    """case: {"layout":..., "cwd": rel dir, "opts": {...}, "env": {...}}. Returns observation + model op (with real paths)."""
    d = mktemp_dir("verif-fs-")
    try:
        materialise(d, case["layout"])
        if mutate:
            mutate(d)
        cwd = os.path.join(d, case.get("cwd", "")) if case.get("cwd") else d
        os.makedirs(cwd, exist_ok=True)
        r = run_cli(tool, cli_args(case["opts"]), cwd, env=case.get("env"))
        obs = {"rc": r["rc"], "out": r["out"], "err": r["err"], "shape": bad_shape(r)}
        if case["opts"].get("out"):
            op = os.path.join(cwd, case["opts"]["out"])
            obs["outfile"] = open(op).read() if os.path.exists(op) else None
        op = {"op": "fs", "entries": model_entries(d, case["layout"]), "cwd": cwd, "env": case.get("env") or {},
              "opts": {k: v for k, v in case["opts"].items() if v not in (None, False)}}
        return obs, op
    finally:
        shutil.rmtree(d, ignore_errors=True)


def parse_out(fmt, text):
    return formats.load_all(fmt, text)


def compare_with_model(obs, m):
    """Determined comparison: ok/err status and (when ok) the documents in the format the model chose."""
    if obs["shape"]:
        return "implementation " + obs["shape"]
    if m is None or "model_crash" in m or "protocol_error" in m:
        return f"MODEL-PROBLEM {m}"
    if "unmodelled" in m:
        return None
    ok_impl = obs["rc"] == 0
    if "err" in m:
        return None if not ok_impl else f"implementation succeeds where the model reports {m['err']}"
    if not ok_impl:
        return "implementation fails: " + obs["err"][:160]
    text = obs["outfile"] if "outfile" in obs else obs["out"]
    if text is None:
        return "output file was not written"
    fmt = m["ok"]["format"]
    want = [from_wire(x) for x in m["ok"]["docs"]]
    if fmt == "toml" and any(not isinstance(w, dict) for w in want):
        # a document that is no table is written in TOML's VALUE syntax, which is not a TOML document (`[true]` would even parse - as a
        # table header): there is nothing to read back; the status was compared above
        return None
    try:
        got = parse_out(fmt, text)
    except Exception as e:
        return f"output is not valid {fmt}: {e}"
    got = [g for g in got]
    if fmt in ("yaml", "yml") and want == [] and got in ([], [None]):
        return None
    if fmt == "toml" and want == [] and got == [{}]:
        return None     # no output at all is the empty text, which a TOML reader takes for one empty table
    if len(got) != len(want) or not all(formats.same(a, b, True) for a, b in zip(got, want)):
        return f"output documents differ from the model (format {fmt})"
    return None


def chain_layout(rng, layers, exts=("json", "yaml", "jsonl", "yml"), share=False):
    """layers (base first) as files `a.<ext>` <- `a.l1.<ext>` <- ...; share=True writes YAML layers with anchors/aliases for equal
    subtrees (the model sees the plain values: an alias is a copy)"""
    name, layout, top = "a", {}, None
    # the whole chain with every `$` written as an escape (no `$` byte in any file), or YAML booleans in other spellings
    esc = rng.random() < 0.15
    bools = rng.random() < 0.3
    for i, l in enumerate(layers):
        if i:
            name += ".l%d" % i
        ext = rng.choice(exts)
        if ext == "toml" and not formats.toml_ok(l):
            ext = "yaml"
        docs = [l]
        if share and ext in ("yaml", "yml"):
            docs = [formats.share_equal(l)]
        node = {"fmt": ext, "docs": docs}
        if esc:
            node["kw"] = {"escape_dollar": True}
        elif bools and ext in ("yaml", "yml"):
            node["kw"] = {"bool_case_seed": rng.randrange(1 << 30)}
        layout[f"{name}.{ext}"] = node
        top = f"{name}.{ext}"
    return layout, top


def file_chain_stage(rep, cases, what="layer files evaluated by the command line"):
    """cases: [{"layout", "opts", "meta"}]: the command line on the files against the model of loader + inheritance + evaluation"""
    res = pmap(run_case, cases)
    ops = []
    for i, (obs, op) in enumerate(res):
        op["id"] = i
        ops.append(op)
    mres = run_model(ops)
    bad = 0
    for i, (c, (obs, op)) in enumerate(zip(cases, res)):
        rep.case(["file-chain", c["layout"]], len(c["layout"]) >= 2)
        rep.count(f"file-chain:{c['meta'].get('kind', '')}:{len(c['layout'])}layers:rc{obs['rc']}:model={'err' if 'err' in (mres.get(i) or {}) else 'unmodelled' if 'unmodelled' in (mres.get(i) or {}) else 'ok'}")
        d = compare_with_model(obs, mres.get(i))
        if d:
            bad += 1
            if len(rep.violations) < 5:
                rep.violation(what + ": " + d, {"case": {"filechain": c}, "observed": obs, "model": mres.get(i)})
    return bad


def file_chain_replay(case):
    obs, op = run_case(case)
    op["id"] = 0
    m = run_model([op]).get(0)
    d = compare_with_model(obs, m)
    print("impl :", obs)
    print("model:", str(m)[:600])
    print("disagreement:", d)
    return 1 if d else 0
