"""Decode tie (C04): the model's yamlTranslate / normalize against yaml.go:yamlTranslateNode and
normalize.go, with the third-party parsers as the shared front end.

For one text in one format the harness returns (a) what the third-party decoder produced — the
yaml.v3 node tree (tags as yaml.v3 resolved them), or the raw Go values of encoding/json / go-toml —
and (b) what bkl's loader made of the same text (MergeFile).  The Lean model maps (a) to (b)."""
import base64
import json
import random
import formats
from common import run_go, run_model

KEYS = ["a", "b", "c", "d", "e"]
YSCAL = ["1", "-7", "0", "2147483647", "2147483648", "-2147483649", "9223372036854775807", "-9223372036854775808",
         "9223372036854775808", "0.1", "1.5", "1e3", "-2.25", "1.0", ".5", "6.02e23", "1e-7", "true", "True", "TRUE", "false", "False",
         "null", "Null", "~", "x", "'1'", '"true"', "2001-12-14", "2001-12-14T21:59:43Z", "a b", "yes", "no", "on", "off", "y", "n",
         "0x1F", "0o17", "017", "1_000", "+1", "+.5", "-0", "0.0", "!!str 5", "!!int '7'", "!!float 1", "!!float '2'", "'<<'", "!!binary aGk=",
         "!!bool 'true'", "!!null ''", "12:30:45", "1e400", "''", '""', "'a: b'", "!custom x", "!!int x", "!!bool maybe", "!!str"]


YCOMMON = ["1", "-7", "0", "2147483648", "9223372036854775807", "0.1", "1.5", "1e3", "true", "false", "null", "~", "x", "'1'", '"true"',
           "a b", "2001-12-14", "yes", "1.0", "-2.25"]


class YGen:
    def __init__(self, rng):
        self.rng = rng
        self.anchors = []   # (name, kind)
        self.n = 0

    def anchor(self, kind):
        self.n += 1
        name = f"n{self.n}"
        return name, kind

    def node(self, depth, want=None):
        rng = self.rng
        r = rng.random()
        cands = [a for a in self.anchors if want is None or a[1] == want]
        if cands and r < 0.2:
            return "*" + rng.choice(cands)[0]
        if want == "map" or (want is None and depth > 0 and r < 0.6):
            txt, kind = self.mapping(depth), "map"
        elif want == "seq" or (want is None and depth > 0 and r < 0.8):
            txt, kind = "[" + ", ".join(self.node(depth - 1) for _ in range(rng.randint(0, 3))) + "]", "seq"
        else:
            txt, kind = (rng.choice(YCOMMON) if rng.random() < 0.75 else rng.choice(YSCAL)), "scalar"
        if rng.random() < 0.35 and not txt.startswith("*"):
            name, _ = self.anchor(kind)
            # the anchor becomes referable only after the node is complete
            out = f"&{name} {txt}"
            self.anchors.append((name, kind))
            return out
        return txt

    def merge_value(self, depth):
        rng = self.rng
        r = rng.random()
        if r < 0.5:
            return self.node(depth - 1, want="map")
        if r < 0.85:
            return "[" + ", ".join(self.node(depth - 1, want="map") for _ in range(rng.randint(0, 3))) + "]"
        return self.node(depth - 1)      # anything, possibly illegal as a merge source

    def mapping(self, depth):
        rng = self.rng
        slots = list(rng.sample(KEYS, rng.randint(0, 4)))
        if depth > 0:
            for _ in range(rng.choice([0, 0, 1, 1, 2])):
                slots.insert(rng.randint(0, len(slots)), "<<")
        ents = []
        for k in slots:     # generated in textual order: an alias can only name an anchor that is already complete
            ents.append(f"<<: {self.merge_value(depth)}" if k == "<<" else f"{k}: {self.node(depth - 1)}")
        return "{" + ", ".join(ents) + "}"


def yaml_text(rng):
    g = YGen(rng)
    r = rng.random()
    if r < 0.85:
        # definitions first so that later mappings can merge them (chained merges included)
        parts = []
        for i in range(rng.randint(1, 4)):
            parts.append(f"k{i}: {g.node(rng.randint(1, 3), want='map' if rng.random() < 0.7 else None)}")
        return "{" + ", ".join(parts) + "}\n"
    if r < 0.92:
        return g.node(2) + "\n"
    if r < 0.94:
        # an anchor NAME defined again later (legal: an alias names the latest definition before it); the later
        # definition reaches the earlier one through another anchor, and nothing is cyclic
        return rng.choice(["base: &x {k: 1}\nmid: &y {inner: *x}\ntop: &x {deep: *y}\nuse: *x\n",
                           "a: &x [1]\nb: &y [*x]\nc: &x [*y, 2]\nd: *x\n",
                           "l: [&e 1, &e 2, *e]\n",
                           "a: &m {p: 1}\nb: &n {<<: *m, q: 2}\nc: &m {<<: *n, r: 3}\nd: *m\n",
                           "- &s [x]\n- &t {in: *s}\n- &s {of: *t}\n- *s\n"])
    if r < 0.96:
        # anchors that contain an alias to themselves (yaml.v3 builds a cyclic node graph)
        return rng.choice(["a: &x [*x]\n", "&m {k: *m}\n", "a: &m {<<: *m, b: 1}\n", "a: &x [[1, *x]]\nb: *x\n", "a: &x {b: {c: [*x]}}\n"])
    return rng.choice(["", "\n", "# only a comment\n", "~\n", "[]\n", "{}\n", "x\n", "- 1\n- 2\n"])


class Num:
    def __init__(self, text):
        self.text = text


JNUMS = ["0", "1", "-1", "7", "2147483647", "2147483648", "9223372036854775807", "-9223372036854775808", "9223372036854775808",
         "-9223372036854775809", "1.0", "1.5", "0.1", "1e3", "1E3", "1e+2", "-0", "-0.0", "0.30000000000000004", "1e21", "1e-7", "5e-324",
         "123456789012345678901234567890", "100", "1.0e0", "2.50", "1e400"]


def json_tree(rng, depth):
    r = rng.random()
    if depth <= 0 or r < 0.45:
        q = rng.random()
        if q < 0.6:
            return Num(rng.choice(JNUMS))
        return rng.choice(["x", "", "1", True, False, None, "é"])
    if r < 0.75:
        return {rng.choice(KEYS): json_tree(rng, depth - 1) for _ in range(rng.randint(0, 3))}
    return [json_tree(rng, depth - 1) for _ in range(rng.randint(0, 3))]


def json_text_of(v):
    if isinstance(v, Num):
        return v.text
    if isinstance(v, dict):
        return "{" + ",".join(json.dumps(k) + ":" + json_text_of(x) for k, x in v.items()) + "}"
    if isinstance(v, list):
        return "[" + ",".join(json_text_of(x) for x in v) + "]"
    return json.dumps(v, ensure_ascii=False)


def json_text(rng):
    n = rng.randint(1, 3)
    return "\n".join(json_text_of(json_tree(rng, rng.randint(0, 3))) for _ in range(n)) + "\n"


TNUMS = ["0", "1", "-1", "+7", "2147483648", "9223372036854775807", "-9223372036854775808", "1_000", "0x1F", "0o17", "0b101",
         "1.0", "1.5", "0.1", "1e3", "1E3", "-0.0", "6.02e23", "1e-7", "3.14_15"]


def toml_val(rng, depth):
    r = rng.random()
    if depth <= 0 or r < 0.5:
        q = rng.random()
        if q < 0.55:
            return rng.choice(TNUMS)
        return rng.choice(['"x"', '""', "'lit'", "true", "false", '"é"', '"1"'])
    if r < 0.75:
        return "[" + ", ".join(toml_val(rng, depth - 1) for _ in range(rng.randint(0, 3))) + "]"
    ks = rng.sample(KEYS, rng.randint(0, 3))
    return "{" + ", ".join(f"{k} = {toml_val(rng, depth - 1)}" for k in ks) + "}"


def toml_doc(rng):
    lines = []
    for k in rng.sample(KEYS, rng.randint(0, 3)):
        lines.append(f"{k} = {toml_val(rng, 2)}")
    if rng.random() < 0.4:
        lines.append("x.y.z = " + toml_val(rng, 1))
    if rng.random() < 0.5:
        lines.append("[t]")
        for k in rng.sample(KEYS, rng.randint(0, 2)):
            lines.append(f"{k} = {toml_val(rng, 1)}")
        if rng.random() < 0.4:
            lines.append("[t.sub]\nn = " + rng.choice(TNUMS))
    if rng.random() < 0.5:
        for _ in range(rng.randint(1, 3)):
            lines.append("[[arr]]")
            for k in rng.sample(KEYS, rng.randint(0, 2)):
                lines.append(f"{k} = {toml_val(rng, 1)}")
    return "\n".join(lines) + "\n"


def toml_text(rng):
    return "---\n".join(toml_doc(rng) for _ in range(rng.randint(1, 3)))


def gen_case(rng):
    r = rng.random()
    if r < 0.5:
        return {"format": rng.choice(["yaml", "yaml", "yml"]), "text": yaml_text(rng)}
    if r < 0.75:
        return {"format": rng.choice(["json", "jsonl", "json-pretty"]), "text": json_text(rng)}
    return {"format": "toml", "text": toml_text(rng)}


def _has_other(w):
    if isinstance(w, dict):
        return "other" in w or any(_has_other(x) for x in w.values())
    if isinstance(w, list):
        return any(_has_other(x) for x in w)
    return False


def evaluate(rep, cases):
    """Returns the number of disagreements; reports the first few as violations."""
    ops = [{"op": "decode", "id": i, "format": c["format"], "text": base64.b64encode(c["text"].encode()).decode()} for i, c in enumerate(cases)]
    go = run_go(ops)
    mops, index = [], []
    for i, c in enumerate(cases):
        g = go.get(i) or {}
        if "node" in g:
            mops.append({"op": "yamltree", "id": len(mops), "node": g["node"]})
            index.append((i, 0))
        for di, raw in enumerate(g.get("raw") or []):
            if _has_other(raw):
                continue
            mops.append({"op": "rawnorm", "id": len(mops), "raw": raw})
            index.append((i, di))
    mres = run_model(mops)
    per_case = {}
    for mi, (i, di) in enumerate(index):
        per_case.setdefault(i, []).append((di, mres.get(mi)))
    bad = 0
    for i, c in enumerate(cases):
        g = go.get(i) or {}
        fam = "yaml" if c["format"] in ("yaml", "yml") else ("toml" if c["format"] == "toml" else "json")
        rep.case(["decode", c["format"], c["text"]], True, sample={"decode": c} if i < 2 else None)
        rep.traces += 1
        d = None
        if any(k in g for k in ("panic", "crash", "timeout", "oom", "stack_overflow")) or not g:
            d = f"implementation crashed / no answer: {str(g)[:160]}"
        elif "toodeep" in json.dumps(g.get("node", "")):
            # a cyclic node graph has no finite value: the only acceptable outcome is a reported error
            rep.count(f"decode:{fam}:cyclic-anchor")
            if "docs" in g:
                d = "bkl accepts a YAML document whose anchor contains itself"
        elif "nodeerr" in g or "rawerr" in g:
            rep.count(f"decode:{fam}:third-party-parser-rejects")
            if "docs" in g:
                d = "bkl loads a text its own decoder rejects"
        elif _has_other(g.get("raw")):
            rep.count(f"decode:{fam}:exotic-go-type")   # time values etc.: outside the model
        else:
            ms = per_case.get(i, [])
            merr = next((m for _, m in ms if m is None or "err" in m or "protocol_error" in m), None)
            if any(m is not None and "protocol_error" in m for _, m in ms):
                d = f"MODEL-PROBLEM {[m for _, m in ms][:1]}"
            elif "docs" not in g:
                rep.count(f"decode:{fam}:impl-err:{g.get('err')}")
                if merr is None:
                    d = f"bkl rejects ({g.get('err')}: {g.get('msg', '')[:100]}) what the model of yamlTranslate/normalize accepts"
            else:
                rep.count(f"decode:{fam}:ok")
                if merr is not None:
                    d = f"bkl accepts what the model rejects ({merr})"
                else:
                    want = [m["ok"] for _, m in sorted(ms, key=lambda x: x[0])]
                    if want != g["docs"]:
                        d = "decoded value differs from the model's yamlTranslate/normalize of the same decoder output"
        if d:
            bad += 1
            if len(rep.violations) < 5:
                rep.disagreements_checked += 1
                rep.violation(f"decode ({c['format']}): {d}", {"case": {"decode": c}, "impl": g, "model": [m for _, m in per_case.get(i, [])]})
    return bad


# ---------------------------------------------------------------- YAML stream syntax
# The same logical stream in the legal spellings of a YAML document boundary.  bkl's reader must see
# the documents an independent YAML parser sees (C04: the result depends on the content only).

ANCHOR_STREAMS = [
    "a: &x 1\nb: *x\n---\na: &x 2\nb: *x\n",
    "d: &d {port: 8080, tls: false}\nmain: *d\n---\nd: &d {port: 9090, tls: true}\nmain: *d\nadmin:\n  <<: *d\n  port: 1\n",
    "l: &l [1, 2]\nm: *l\n---\nl: &l [3]\nm: *l\n--- # third\nl: &l []\nm: *l\n",
]


def ystream_case(rng):
    if rng.random() < 0.15:
        t = rng.choice(ANCHOR_STREAMS)
        return {"format": "yaml", "text": t, "docs": [x for x in formats.yaml_load_all(t) if x is not None]}
    import props.c04 as c04
    docs = []
    for _ in range(rng.randint(1, 3)):
        d = {rng.choice(KEYS): c04.tree(rng, 1) for _ in range(rng.randint(1, 3))}
        docs.append(d)
    out = ""
    if rng.random() < 0.3:
        out += rng.choice(["---\n", "--- \n", "--- # start\n", "# leading comment\n---\n"])
    for i, d in enumerate(docs):
        if i > 0:
            how = rng.choice(["line", "line", "space", "comment", "inline", "enddoc", "tab"])
            if how == "inline":
                out += "--- " + formats.dump_yaml([d], flow=True)
                continue
            out += {"line": "---\n", "space": "--- \n", "comment": "---   # next document\n", "enddoc": "...\n---\n", "tab": "---\t\n"}[how]
        out += formats.dump_yaml([d], flow=rng.choice([False, None]))
    if rng.random() < 0.2:
        out += "...\n"
    return {"format": "yaml", "text": out, "docs": docs}


def evaluate_streams(rep, cases):
    ops = [{"op": "decode", "id": i, "format": c["format"], "text": base64.b64encode(c["text"].encode()).decode()} for i, c in enumerate(cases)]
    go = run_go(ops)
    from wire import from_wire
    bad = 0
    for i, c in enumerate(cases):
        g = go.get(i) or {}
        rep.case(["ystream", c["text"]], len(c["docs"]) > 1, sample={"yaml_stream": c["text"]} if i < 2 else None)
        rep.count("ystream:docs%d" % len(c["docs"]))
        try:
            indep = [x for x in formats.yaml_load_all(c["text"]) if x is not None]
        except Exception as e:
            rep.count("ystream:independent-parser-rejects")
            continue
        if not (len(indep) == len(c["docs"]) and all(formats.same(a, b) for a, b in zip(indep, c["docs"]))):
            rep.count("ystream:writer-bug")
            continue
        d = None
        if "docs" not in g:
            d = f"bkl rejects a YAML stream that an independent parser reads: {g.get('err')} {g.get('msg', '')[:100]}"
        else:
            got = [x for x in (from_wire(w) for w in g["docs"]) if x is not None]
            if not (len(got) == len(indep) and all(formats.same(a, b) for a, b in zip(got, indep))):
                d = f"bkl reads {len(got)} document(s) where the stream holds {len(indep)} (documents dropped or changed)"
        if d:
            bad += 1
            if len(rep.violations) < 5:
                rep.disagreements_checked += 1
                rep.violation(f"yaml stream syntax: {d}", {"case": {"ystream": c}, "impl": g})
    return bad


# ---------------------------------------------------------------- stream framing tie
# The model cuts a text into parts (Bkl.Stream.splitAt at separator lines).  Compositional check against the
# real readers, with the real readers themselves as the per-part decoder:
#     bkl(text)  ==  concatenation over the model's parts of bkl(part)
# A part contains no separator line, so bkl's own framing is the identity on it.

FRAME_LINES_YAML = ["a: 1", "b: 2", "c: [1, 2]", "---", "--- ", "--- # c", " ---", "----", "...", "", "# comment", "--- {d: 4}", "x: '---'", "-- -",
                    "---\t", "k: |", "  ---", "  text", "e: 5"]
FRAME_LINES_TOML = ["a = 1", "b = 2", "---", "+++", "--- ", " +++", "++++", "", "# comment", "[t]", "x = \"---\"", "+++ ", "e = 5"]


def frame_case(rng):
    fmt = rng.choice(["yaml", "toml"])
    pool = FRAME_LINES_YAML if fmt == "yaml" else FRAME_LINES_TOML
    lines = [rng.choice(pool) for _ in range(rng.randint(0, 7))]
    return {"format": fmt, "lines": lines, "final_newline": rng.random() < 0.8}


def evaluate_frames(rep, cases):
    mres = run_model([{"op": "ssplit", "id": i, "format": c["format"], "lines": c["lines"]} for i, c in enumerate(cases)])
    ops, index = [], []

    def text_of(lines, final):
        return "\n".join(lines) + ("\n" if final and lines else "")
    for i, c in enumerate(cases):
        ops.append({"op": "decode", "id": len(ops), "format": c["format"], "text": base64.b64encode(text_of(c["lines"], c["final_newline"]).encode()).decode()})
        index.append((i, None))
        parts = (mres.get(i) or {}).get("ok")
        if parts is None:
            continue
        for pi, p in enumerate(parts):
            # the last part keeps the text's final-newline status; inner parts end where the separator line began
            final = c["final_newline"] if pi == len(parts) - 1 else True
            ops.append({"op": "decode", "id": len(ops), "format": c["format"], "text": base64.b64encode(text_of(p, final).encode()).decode()})
            index.append((i, pi))
    go = run_go(ops)
    whole, bypart = {}, {}
    for oi, (i, pi) in enumerate(index):
        if pi is None:
            whole[i] = go.get(oi) or {}
        else:
            bypart.setdefault(i, {})[pi] = go.get(oi) or {}
    bad = 0
    for i, c in enumerate(cases):
        rep.case(["frame", c], True)
        rep.traces += 1
        parts = (mres.get(i) or {}).get("ok")
        w = whole.get(i, {})
        d = None
        if parts is None:
            d = f"MODEL-PROBLEM {mres.get(i)}"
        else:
            ps = [bypart.get(i, {}).get(pi, {}) for pi in range(len(parts))]
            rep.count(f"frame:{c['format']}:parts{min(len(parts), 4)}")
            if any("docs" not in p for p in ps):
                if "docs" in w:
                    d = "bkl reads the whole text but rejects one of the parts the model cuts it into"
            elif "docs" not in w:
                d = f"bkl rejects the whole text ({w.get('err')}) but reads every part the model cuts it into"
            else:
                cat = [x for p in ps for x in p["docs"]]
                if cat != w["docs"]:
                    d = f"bkl reads {len(w['docs'])} document(s) from the text and {len(cat)} from the model's parts, or different ones"
        if d:
            bad += 1
            if len(rep.violations) < 5:
                rep.disagreements_checked += 1
                rep.violation(f"stream framing ({c['format']}): {d}", {"case": {"frame": c}, "model_parts": parts, "impl_whole": w})
    return bad


def run(rep, n, seed_offset=4242):
    rng3 = random.Random(rep.seed + seed_offset + 2)
    evaluate_frames(rep, [frame_case(rng3) for _ in range(max(100, n // 4))])
    rng2 = random.Random(rep.seed + seed_offset + 1)
    evaluate_streams(rep, [ystream_case(rng2) for _ in range(max(50, n // 6))])
    rng = random.Random(rep.seed + seed_offset)
    return evaluate(rep, [gen_case(rng) for _ in range(n)])
