"""Wire encoding shared by the Go harness (bklgo) and the Lean model driver (bklmodel).

Python-side values: None, bool, int, float, str, list, dict[str, value].
Wire: null | true | false | "s" | {"i":"123"} | {"f":"0.1"} | [..] | {"m":[["k",v],...]} (keys sorted)
Anything Go produced that the model has no constructor for arrives as {"x": "<Go type>"}.
"""
import math


class Exotic:
    def __init__(self, typ, rep=""):
        self.typ = typ
        self.rep = rep

    def __repr__(self):
        return f"Exotic({self.typ},{self.rep})"

    def __eq__(self, other):
        return isinstance(other, Exotic) and self.typ == other.typ and self.rep == other.rep

    def __hash__(self):
        return hash((self.typ, self.rep))


def go_float_str(f: float) -> str:
    """strconv.FormatFloat(f, 'g', -1, 64) == what Go's %v prints for a float64."""
    if math.isnan(f):
        return "NaN"
    if math.isinf(f):
        return "+Inf" if f > 0 else "-Inf"
    if f == 0:
        return "-0" if math.copysign(1, f) < 0 else "0"
    r = repr(abs(f))
    # shortest digits and decimal exponent from Python's repr (also shortest round-trip)
    if "e" in r:
        mant, exp = r.split("e")
        exp = int(exp)
    else:
        mant, exp = r, 0
    if "." in mant:
        ip, fp = mant.split(".")
    else:
        ip, fp = mant, ""
    digits = (ip + fp).lstrip("0")
    # decimal point position: value = 0.DIGITS * 10^dp
    lead_zeros = len(ip + fp) - len((ip + fp).lstrip("0"))
    dp = len(ip) + exp - lead_zeros
    digits = digits.rstrip("0") or "0"
    x = dp - 1
    sign = "-" if f < 0 else ""
    nd = len(digits)
    # strconv/ftoa.go, %g with shortest precision: eprec = 6; %e iff exp < -4 || exp >= eprec.
    # fmt's %v of a float64 is exactly FormatFloat(f, 'g', -1, 64).
    if x < -4 or x >= 6:
        # %e: d.ddddde±dd
        m = digits[0]
        if nd > 1:
            m += "." + digits[1:]
        e = x
        es = ("-" if e < 0 else "+") + (f"{abs(e):02d}")
        return f"{sign}{m}e{es}"
    # %f
    if dp <= 0:
        return sign + "0." + "0" * (-dp) + digits
    if dp >= nd:
        return sign + digits + "0" * (dp - nd)
    return sign + digits[:dp] + "." + digits[dp:]


def to_wire(v):
    if v is None or isinstance(v, bool) or isinstance(v, str):
        return v
    if isinstance(v, int):
        return {"i": str(v)}
    if isinstance(v, float):
        return {"f": go_float_str(v)}
    if isinstance(v, (list, tuple)):
        return [to_wire(x) for x in v]
    if isinstance(v, dict):
        return {"m": [[k, to_wire(v[k])] for k in sorted(v)]}
    if isinstance(v, Exotic):
        return {"x": v.typ, "repr": v.rep}
    raise TypeError(f"to_wire: {type(v)}")


def from_wire(w):
    if w is None or isinstance(w, bool) or isinstance(w, str):
        return w
    if isinstance(w, list):
        return [from_wire(x) for x in w]
    if isinstance(w, dict):
        if "i" in w:
            return int(w["i"])
        if "f" in w:
            return float(w["f"].replace("+Inf", "inf").replace("-Inf", "-inf"))
        if "m" in w:
            return {k: from_wire(x) for k, x in w["m"]}
        if "x" in w:
            return Exotic(w["x"], w.get("repr", ""))
    raise TypeError(f"from_wire: {w!r}")


def canon(w):
    """Canonical hashable form of a wire value (floats by text)."""
    import json
    return json.dumps(w, sort_keys=True, ensure_ascii=False)
