"""Independent writers and readers for JSON / YAML / TOML (nothing here calls bkl)."""
import json
import math
import re
import tomllib
import yaml
from wire import go_float_str

try:
    _Loader = yaml.CSafeLoader
    _Dumper = yaml.CSafeDumper
except AttributeError:  # pragma: no cover
    _Loader = yaml.SafeLoader
    _Dumper = yaml.SafeDumper


# ---------------------------------------------------------------- YAML 1.2 core-schema reader
class Core12Loader(_Loader):
    pass


Core12Loader.yaml_implicit_resolvers = {}
for tag, rx, first in [
    ("tag:yaml.org,2002:null", re.compile(r"^(?:~|null|Null|NULL|)$"), ["~", "n", "N", ""]),
    ("tag:yaml.org,2002:bool", re.compile(r"^(?:true|True|TRUE|false|False|FALSE)$"), list("tTfF")),
    ("tag:yaml.org,2002:int", re.compile(r"^(?:[-+]?[0-9]+|0o[0-7]+|0x[0-9a-fA-F]+)$"), list("-+0123456789")),
    ("tag:yaml.org,2002:float", re.compile(r"^(?:[-+]?(?:\.[0-9]+|[0-9]+(?:\.[0-9]*)?)(?:[eE][-+]?[0-9]+)?|[-+]?\.(?:inf|Inf|INF)|\.(?:nan|NaN|NAN))$"), list("-+0123456789.")),
    ("tag:yaml.org,2002:merge", re.compile(r"^(?:<<)$"), ["<"]),
]:
    Core12Loader.add_implicit_resolver(tag, rx, first)


def _int12(loader, node):
    s = loader.construct_scalar(node)
    if s.startswith("0o"):
        return int(s[2:], 8)
    if s.startswith("0x"):
        return int(s[2:], 16)
    return int(s)


def _float12(loader, node):
    s = loader.construct_scalar(node).lower()
    if s.endswith(".inf"):
        return -math.inf if s.startswith("-") else math.inf
    if s.endswith(".nan"):
        return math.nan
    return float(s)


Core12Loader.add_constructor("tag:yaml.org,2002:int", _int12)
Core12Loader.add_constructor("tag:yaml.org,2002:float", _float12)


def yaml_load_all(text):
    return list(yaml.load_all(text, Loader=Core12Loader))


def json_load_all(text):
    dec = json.JSONDecoder()
    out, i = [], 0
    n = len(text)
    while True:
        while i < n and text[i] in " \t\r\n":
            i += 1
        if i >= n:
            break
        v, i = dec.raw_decode(text, i)
        out.append(v)
    return out


def toml_load_all(text):
    parts = re.split(r"(?m)^(?:\+\+\+|---)$", text)
    return [tomllib.loads(p) for p in parts]


def load_all(fmt, text):
    if fmt in ("json", "jsonl", "json-pretty"):
        return json_load_all(text)
    if fmt in ("yaml", "yml"):
        return yaml_load_all(text)
    if fmt == "toml":
        return toml_load_all(text)
    raise ValueError(fmt)


# ---------------------------------------------------------------- writers
def _json_default(o):
    raise TypeError


def dump_json(docs, pretty=False):
    out = []
    for d in docs:
        out.append(json.dumps(d, ensure_ascii=False, indent=2 if pretty else None, allow_nan=False))
    return "\n".join(out) + "\n"


class _FloatDumper(_Dumper):
    pass


def _repr_float(dumper, f):
    # shortest round-trip text, always with a '.' or exponent so that it is a YAML 1.2 float
    s = repr(f)
    if "e" in s and "." not in s.split("e")[0]:
        m, e = s.split("e")
        s = m + ".0e" + e
    return dumper.represent_scalar("tag:yaml.org,2002:float", s)


_FloatDumper.add_representer(float, _repr_float)


def dump_yaml(docs, flow=None, sep="---\n"):
    """Documents are written one by one and joined by a separator LINE (`---`), the form bkl documents.
    Other legal spellings of a document start (`--- {a: 1}`, `--- # comment`, `--- ` with trailing blank)
    are requested explicitly through `sep` (C04 probes them)."""
    parts = [yaml.dump(d, Dumper=_FloatDumper, default_flow_style=flow, allow_unicode=True, sort_keys=True, width=1000) for d in docs]
    if sep == "inline":
        # content on the separator line: only possible for flow-style / scalar documents
        out = parts[0]
        for d, p in zip(docs[1:], parts[1:]):
            one = yaml.dump(d, Dumper=_FloatDumper, default_flow_style=True, allow_unicode=True, sort_keys=True, width=100000)
            out += "--- " + one
        return out
    return sep.join(parts)


def share_equal(v, memo=None):
    """the same tree with EQUAL non-empty containers made one Python object: the YAML writer then emits the first occurrence with an
    anchor (`&id001`) and the others as aliases (`*id001`).  Read back, an alias denotes a copy of the anchored value."""
    memo = {} if memo is None else memo
    if isinstance(v, dict):
        v = {k: share_equal(x, memo) for k, x in v.items()}
    elif isinstance(v, list):
        v = [share_equal(x, memo) for x in v]
    else:
        return v
    if not v:
        return v
    key = json.dumps(v, sort_keys=True, default=str)
    return memo.setdefault(key, v)


def _toml_str(s):
    out = '"'
    for c in s:
        o = ord(c)
        if c == '"':
            out += '\\"'
        elif c == "\\":
            out += "\\\\"
        elif c == "\n":
            out += "\\n"
        elif c == "\t":
            out += "\\t"
        elif c == "\r":
            out += "\\r"
        elif o < 0x20 or o == 0x7F:
            out += "\\u%04x" % o
        else:
            out += c
    return out + '"'


def _toml_val(v):
    if isinstance(v, bool):
        return "true" if v else "false"
    if isinstance(v, int):
        return str(v)
    if isinstance(v, float):
        s = repr(v)
        if "e" in s and "." not in s.split("e")[0]:
            m, e = s.split("e")
            s = m + ".0e" + e
        if "." not in s and "e" not in s:
            s += ".0"
        return s
    if isinstance(v, str):
        return _toml_str(v)
    if isinstance(v, list):
        return "[" + ", ".join(_toml_val(x) for x in v) + "]"
    if isinstance(v, dict):
        return "{" + ", ".join(f"{_toml_str(k)} = {_toml_val(x)}" for k, x in v.items()) + "}"
    raise TypeError(f"toml cannot hold {v!r}")


def dump_toml(docs, tables=False):
    parts = []
    for d in docs:
        if not isinstance(d, dict):
            raise TypeError("toml documents are tables")
        lines = []
        later = []
        for k, v in d.items():
            if tables and isinstance(v, dict) and v and all(not isinstance(x, dict) or True for x in v.values()):
                later.append((k, v))
            else:
                lines.append(f"{_toml_str(k)} = {_toml_val(v)}")
        for k, v in later:
            lines.append(f"\n[{_toml_str(k)}]")
            for k2, v2 in v.items():
                lines.append(f"{_toml_str(k2)} = {_toml_val(v2)}")
        parts.append("\n".join(lines) + "\n")
    return "---\n".join(parts)


def toml_ok(v, top=True):
    """Can TOML represent this value (no nulls; map-rooted)?"""
    if v is None:
        return False
    if top and not isinstance(v, dict):
        return False
    if isinstance(v, dict):
        return all(toml_ok(x, False) for x in v.values())
    if isinstance(v, list):
        return all(toml_ok(x, False) for x in v)
    return True


def dump(fmt, docs, escape_dollar=False, bool_case=None, **kw):
    """escape_dollar: every `$` is written as the escape `\\u0024` (JSON strings, TOML basic strings; YAML files are then written as
    JSON text, which is YAML with double-quoted scalars): the decoded value is the same, the file holds no `$` byte.
    bool_case: a random.Random; YAML booleans are then written in the other core-schema spellings too (True, TRUE, False, FALSE)."""
    if fmt in ("json", "jsonl"):
        out = dump_json(docs)
        return out.replace("$", "\\u0024") if escape_dollar else out
    if fmt == "json-pretty":
        out = dump_json(docs, pretty=True)
        return out.replace("$", "\\u0024") if escape_dollar else out
    if fmt in ("yaml", "yml"):
        if escape_dollar:
            return "---\n".join(json.dumps(d, ensure_ascii=False) + "\n" for d in docs).replace("$", "\\u0024")
        if bool_case is not None:
            kw.setdefault("flow", False)        # block style throughout: every boolean sits on a line of its own
        out = dump_yaml(docs, **kw)
        if bool_case is not None:
            # only a line that is nothing but indentation, list dashes, an optional simple key and the boolean
            out = re.sub(r"(?m)^(\s*(?:- )*(?:[A-Za-z0-9_$.]+: )?)(true|false)$", lambda m: m.group(1) + bool_case.choice(
                [m.group(2), m.group(2).capitalize(), m.group(2).upper()]), out)
        return out
    if fmt == "toml":
        out = dump_toml(docs, **kw)
        return out.replace("$", "\\u0024") if escape_dollar else out
    raise ValueError(fmt)


# ---------------------------------------------------------------- value comparison
def same(a, b, kinds=False):
    """Structural equality with bool distinct from numbers; numbers by exact value
    (and by int/float kind when kinds=True)."""
    if isinstance(a, bool) or isinstance(b, bool):
        return isinstance(a, bool) and isinstance(b, bool) and a == b
    if isinstance(a, (int, float)) and isinstance(b, (int, float)):
        if kinds and isinstance(a, float) != isinstance(b, float):
            return False
        return a == b
    if type(a) != type(b):
        return False
    if isinstance(a, dict):
        return a.keys() == b.keys() and all(same(a[k], b[k], kinds) for k in a)
    if isinstance(a, list):
        return len(a) == len(b) and all(same(x, y, kinds) for x, y in zip(a, b))
    return a == b
