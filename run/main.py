"""Entry point: python3 run/main.py <Cxx> [quick|thorough] [--replay file]"""
import importlib
import json
import os
import sys
import time

sys.path.insert(0, os.path.dirname(os.path.abspath(__file__)))
import common
from common import Report, log


def main():
    sys.setrecursionlimit(20000)
    args = sys.argv[1:]
    if not args:
        print("usage: check <Cxx> [quick|thorough] [--replay file]")
        return 2
    pid = args[0]
    tier = "quick"
    replay = None
    i = 1
    while i < len(args):
        if args[i] in ("quick", "thorough"):
            tier = args[i]
        elif args[i] == "--replay":
            replay = args[i + 1]
            i += 1
        i += 1
    tier = os.environ.get("VERIF_TIER", tier) if len(args) < 2 else tier
    seed = int(os.environ.get("VERIF_SEED", "1"))
    mod = importlib.import_module("props." + pid.lower())
    rep = Report(pid, tier, seed)
    common.TIER = tier
    fails = common.build_go(race=(tier == "thorough" and getattr(mod, "NEEDS_RACE", False)))
    if fails:
        # the tree no longer builds against the public API the harness uses
        rep.rule = "build failed"
        rep.broken.append({"obligation": "go build of harness and CLIs", "detail": fails})
        rep.violation("harness/CLI build failed: " + ", ".join(fails), {"build_failures": fails}, no_input=True)
        rep.evaluations = 1
        return rep.finish()
    ok, out = common.build_lean(["bklmodel"])
    if not ok:
        log(out[-3000:])
        print("model build failed (framework problem)")
        return 2
    if replay:
        return mod.replay(rep, json.load(open(replay)))
    mod.run(rep)
    return rep.finish()


if __name__ == "__main__":
    sys.exit(main())
