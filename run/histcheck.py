"""Generic correspondence runner for `hist` ops (MergeDocument / Documents / OutputDocuments)."""
import json
from common import run_go, run_model, compare_hist, shrink, status_of, log
from wire import to_wire


def chain_case(layers, parents=None, env=None, tail=("docs", "outdocs")):
    """layers: list of python trees; layer i is the child of layer i-1 (file-style chain)."""
    steps = []
    for i, l in enumerate(layers):
        ps = [f"L{i-1}"] if i > 0 else []
        steps.append({"merge": {"id": f"L{i}", "parents": ps, "data": l}})
    for t in tail:
        steps.append({t: True})
    return {"steps": steps, "env": env or {}}


def to_op(case, cid):
    steps = []
    for s in case["steps"]:
        if "merge" in s:
            m = s["merge"]
            steps.append({"merge": {"id": m["id"], "parents": m["parents"], "data": to_wire(m["data"])}})
        else:
            steps.append(s)
    op = {"op": "hist", "id": cid, "steps": steps, "env": case.get("env") or {}}
    for k in ("rep", "par"):
        if k in case:
            op[k] = case[k]
    return op


def run_cases(cases, compare_class=False, go_binary="bklgo"):
    """Returns list of (case, go_result, model_result, disagreement|None, n_unmodelled)."""
    ops = [to_op(c, i) for i, c in enumerate(cases)]
    go = run_go(ops, binary=go_binary)
    mo = run_model([dict(o, **{}) for o in ops])
    out = []
    for i, c in enumerate(cases):
        d, unm = compare_hist(go.get(i), mo.get(i), compare_class)
        out.append((c, go.get(i), mo.get(i), d, unm))
    return out


def disagrees(case, compare_class=False):
    r = run_cases([case], compare_class)
    return r[0][3] is not None


def shrink_case(case, compare_class=False, budget=150, pred=None):
    """Shrink the merge data of a failing hist case while it keeps failing."""
    pred = pred or (lambda c: disagrees(c, compare_class))
    datas = [s["merge"]["data"] for s in case["steps"] if "merge" in s]

    def rebuild(ds):
        it = iter(ds)
        steps = []
        for s in case["steps"]:
            if "merge" in s:
                m = dict(s["merge"])
                m["data"] = next(it)
                steps.append({"merge": m})
            else:
                steps.append(s)
        return dict(case, steps=steps)

    def fails(ds):
        if not isinstance(ds, list) or len(ds) != len(datas):
            return False
        return pred(rebuild(ds))

    small = shrink(datas, fails, budget)
    return rebuild(small)


def step_summary(res):
    if not res or "res" not in res:
        return status_of(res)[0] + ":" + str(status_of(res)[1])
    return "|".join(("E:" + s["err"]) if "err" in s else ("ok" if ("ok" in s or "bytes" in s) else list(s)[0]) for s in res["res"])
