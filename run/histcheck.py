"""Generic correspondence runner for `hist` ops (MergeDocument / Documents / OutputDocuments)."""
import json
from common import run_go, run_model, compare_hist, shrink, status_of, log
from wire import to_wire


def chain_case(layers, parents=None, env=None, tail=("docs", "alias", "outdocs")):
    """layers: list of python trees; layer i is the child of layer i-1 (file-style chain)."""
    steps = []
    for i, l in enumerate(layers):
        ps = [f"L{i-1}"] if i > 0 else []
        steps.append({"merge": {"id": f"L{i}", "parents": ps, "data": l}})
    for t in tail:
        steps.append({t: True})
    return {"steps": steps, "env": env or {}}


def to_op(case, cid):
    steps = []
    for s in case["steps"]:
        if "merge" in s:
            m = s["merge"]
            steps.append({"merge": {"id": m["id"], "parents": m["parents"], "data": to_wire(m["data"])}})
        else:
            steps.append(s)
    op = {"op": "hist", "id": cid, "steps": steps, "env": case.get("env") or {}}
    for k in ("rep", "par", "continue"):
        if k in case:
            op[k] = case[k]
    return op


def run_cases(cases, compare_class=False, go_binary="bklgo"):
    """Returns list of (case, go_result, model_result, disagreement|None, n_unmodelled)."""
    ops = [to_op(c, i) for i, c in enumerate(cases)]
    go = run_go(ops, binary=go_binary)
    mo = run_model([dict(o, **{}) for o in ops])
    out = []
    for i, c in enumerate(cases):
        d, unm = compare_hist(go.get(i), mo.get(i), compare_class)
        out.append((c, go.get(i), mo.get(i), d, unm))
    return out


def disagrees(case, compare_class=False):
    r = run_cases([case], compare_class)
    return r[0][3] is not None


def shrink_case(case, compare_class=False, budget=150, pred=None):
    """Shrink the merge data of a failing hist case while it keeps failing."""
    pred = pred or (lambda c: disagrees(c, compare_class))
    datas = [s["merge"]["data"] for s in case["steps"] if "merge" in s]

    def rebuild(ds):
        it = iter(ds)
        steps = []
        for s in case["steps"]:
            if "merge" in s:
                m = dict(s["merge"])
                m["data"] = next(it)
                steps.append({"merge": m})
            else:
                steps.append(s)
        return dict(case, steps=steps)

    def fails(ds):
        if not isinstance(ds, list) or len(ds) != len(datas):
            return False
        return pred(rebuild(ds))

    small = shrink(datas, fails, budget)
    return rebuild(small)


def step_summary(res):
    if not res or "res" not in res:
        return status_of(res)[0] + ":" + str(status_of(res)[1])
    return "|".join(("E:" + s["err"]) if "err" in s else ("ok" if ("ok" in s or "bytes" in s) else list(s)[0]) for s in res["res"])


# ---------------------------------------------------------------- separation monitor follow-ups (DESIGN §5.2)
#
# The value-semantic model is a faithful abstraction of the Go heap only while no mutable
# container is reachable twice from the parser's documents.  The `alias` step reports such
# containers with both access paths.  Sharing by itself is not a property violation; it is the
# correspondence precondition breaking.  The search below aims a further layer at one of the
# two paths and lets the ordinary correspondence decide whether the other one moves with it.

MARK = "zzalias"


def _plain_scalar(v):
    return (isinstance(v, (bool, int, float)) or (isinstance(v, str) and not v.startswith("$"))) and v is not None


def _same(a, b):
    return type(a) is type(b) and a == b


def _distinguish(entries, idx):
    """The most specific plain-scalar map pattern matching entries[idx] (it may match other entries
    too: the model computes the expected result either way), or None when the entry is not a map."""
    e = entries[idx]
    if not isinstance(e, dict):
        return None
    return {k: v for k, v in e.items() if not k.startswith("$") and _plain_scalar(v)}


def _patch_into(node, path, mark=MARK):
    """A layer fragment that adds `mark` inside the container found at `path` below `node`."""
    if not path:
        if isinstance(node, dict):
            return {mark: [1]}     # applied twice through an alias this becomes [1, 1]
        if isinstance(node, list):
            return [mark]
        return None
    el = path[0]
    if "k" in el:
        if not isinstance(node, dict) or el["k"] not in node or el["k"].startswith("$"):
            return None
        sub = _patch_into(node[el["k"]], path[1:], mark)
        return None if sub is None else {el["k"]: sub}
    if not isinstance(node, list) or el["i"] >= len(node):
        return None
    pat = _distinguish(node, el["i"])
    sub = _patch_into(node[el["i"]], path[1:], mark)
    if pat is None or not isinstance(sub, dict):
        return None
    return [dict(sub, **{"$match": pat})]


def alias_followups(case, go):
    """Follow-up cases for every shared container the monitor reported in `go` (result of `case`)."""
    from wire import from_wire
    out = []
    if not go or "res" not in go:
        return out
    docs = None
    for si, (step, res) in enumerate(zip(case["steps"], go["res"])):
        if "docs" in step and "ok" in res:
            try:
                docs = [from_wire(d) for d in res["ok"]]
            except Exception:
                docs = None
        if "alias" in step and res.get("shared") and docs is not None:
            def layer_for(tgt, mark=MARK):
                di, path = tgt[0], tgt[1:]
                if di >= len(docs):
                    return None
                body = _patch_into(docs[di], path, mark)
                if not isinstance(body, dict):
                    return None
                sel = {} if len(docs) == 1 else _distinguish(docs, di)
                if sel is None:
                    return None
                return dict(body, **{"$match": sel})

            def node_at(tgt):
                n = docs[tgt[0]] if tgt[0] < len(docs) else None
                for el in tgt[1:]:
                    try:
                        n = n[el["k"]] if "k" in el else n[el["i"]]
                    except Exception:
                        return None
                return n
            merges = [s for s in case["steps"][:si] if "merge" in s]
            tail = [{"docs": True}, {"outdocs": True}]
            for pair in res.get("pairs") or []:
                targets = [pair["a"], pair["b"]]
                # a shared LIST shares its entries as well: aim at the map entries (an append to the list itself goes
                # to a fresh or private slice header and shows nothing)
                for tgt in (pair["a"], pair["b"]):
                    n = node_at(tgt)
                    if isinstance(n, list):
                        targets += [list(tgt) + [{"i": i}] for i, e in enumerate(n[:3]) if isinstance(e, dict)]
                for tgt in targets:
                    layer = layer_for(tgt)
                    if layer is None:
                        continue
                    out.append({"steps": merges + [{"merge": {"id": "ALIAS", "parents": [], "data": layer}}] + tail,
                                "env": case.get("env") or {}, "alias_followup": True})
                # two appends, one through each access path: with spare capacity in a shared backing array the second
                # overwrites what the first wrote
                la, lb = layer_for(pair["a"], MARK + "A"), layer_for(pair["b"], MARK + "B")
                if la is not None and lb is not None:
                    for first, second in ((la, lb), (lb, la)):
                        out.append({"steps": merges + [{"merge": {"id": "ALIAS1", "parents": [], "data": first}},
                                                       {"merge": {"id": "ALIAS2", "parents": [], "data": second}}] + tail,
                                    "env": case.get("env") or {}, "alias_followup": True})
    return out


def shared_total(go):
    if not go or "res" not in go:
        return 0
    return sum(r.get("shared", 0) for r in go["res"] if isinstance(r, dict))


def alias_search(rep, results, compare_class=False):
    """Run the follow-ups for every result whose monitor reported sharing.
    Returns extra failing tuples (case, go, model, description)."""
    shared_cases = [(c, g) for c, g, _, _, _ in results if shared_total(g)]
    if not shared_cases:
        return []
    rep.count("alias:cases_with_shared_containers", len(shared_cases))
    fu = []
    for c, g in shared_cases[:200]:
        fu += alias_followups(c, g)
    rep.count("alias:followup_cases", len(fu))
    bad = []
    if fu:
        for c, g, m, d, _ in run_cases(fu, compare_class):
            if d:
                bad.append((c, g, m, "aliased container: a layer aimed at one place also changed another: " + d))
    if not bad:
        ex = rep.extra.setdefault("alias_unexplained", [])
        if len(ex) < 3:
            c, g = shared_cases[0]
            ex.append({"case": c, "monitor": [r for r in g["res"] if isinstance(r, dict) and r.get("shared")]})
    return bad


def alias_verdict(rep):
    """After all cases ran: sharing was observed but no follow-up made it observable."""
    ex = rep.extra.get("alias_unexplained")
    if ex and not rep.violations:
        rep.violation("correspondence precondition broken: containers are shared inside the parser's documents "
                      "(separation monitor), so the value-semantic model no longer describes the heap; "
                      "no layer sequence exposing it was found",
                      {"obligation": "separation monitor (histcheck.alias_search)", "examples": ex}, no_input=True)
