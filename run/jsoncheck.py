"""JSON text tie: the model's OWN JSON writer and reader (lean/Bkl/Json.lean, theorems C05_json_*, C14_json_*)
against the real ones, on text.

  * encode:  bytes of Format("json").MarshalStream(docs)  ==  model jsonEncodeStream(docs), byte for byte
  * decode:  documents bkl loads from a JSON text (or its refusal)  ==  model jsonLoadStream(text)

strconv stays outside the model: the two float tables (`jf`: float text -> JSON literal, `fol`: number literal ->
float text) are computed here, from Python's correctly rounded float()/repr(), not by the code under test.
"""
import base64
import json
import math
import re
from decimal import Decimal
from common import run_go, run_model
from wire import to_wire, from_wire, go_float_str

STR_PARTS = ["", "a", "k", " ", "\"", "\\", "/", "\b", "\f", "\n", "\r", "\t", "\x00", "\x01", "\x1f", "\x7f", "<", ">", "&",
             " ", " ", "é", "日本", "\U0001F600", "�", " ", "$", "{", "}", "'", "\\u0041", "\\n", "\u0080", "퟿", ""]
FLOATS = [0.5, 1.5, -2.25, 1.0, -1.0, 0.0, 100.0, 1e20, 1e21, 1e22, 123456789012345680000.0, 1e-6, 1e-7, 9.5e-7, 1.2345e-9,
          3.141592653589793, 1e300, 5e-324, 2.0 ** 53, 0.1, 1 / 3, 1e6, 1.5e300, -1e-10, 4.9e-7, 1e-5]
INTS = [0, 1, -1, 7, 42, -100, 2 ** 31, 2 ** 53 + 1, 2 ** 63 - 1, -2 ** 63]


def go_json_float(f):
    """encoding/json floatEncoder after bkl's jsonKeepFloats (integral floats below 1e21 keep one fraction digit)."""
    if f == math.trunc(f) and abs(f) < 1e21:
        return "%.1f" % f
    a = abs(f)
    r = repr(a)
    mant, exp = (r.split("e") + ["0"])[:2]
    exp = int(exp)
    ip, fp = (mant.split(".") + [""])[:2]
    alld = ip + fp
    lead = len(alld) - len(alld.lstrip("0"))
    digits = alld.lstrip("0").rstrip("0") or "0"
    dp = len(ip) + exp - lead            # value = 0.DIGITS * 10^dp
    sign = "-" if f < 0 else ""
    if a != 0 and (a < 1e-6 or a >= 1e21):
        x = dp - 1
        m = digits[0] + ("." + digits[1:] if len(digits) > 1 else "")
        es = ("-" if x < 0 else "+") + ("%02d" % abs(x))
        out = f"{m}e{es}"
        # encoding/json: clean up e-09 to e-9
        if len(out) >= 4 and out[-4] == "e" and out[-3] == "-" and out[-2] == "0":
            out = out[:-2] + out[-1]
        return sign + out
    if dp <= 0:
        return sign + "0." + "0" * (-dp) + digits
    if dp >= len(digits):
        return sign + digits + "0" * (dp - len(digits))
    return sign + digits[:dp] + "." + digits[dp:]


def floats_of(v, acc):
    """collects the floats of a value into the dict acc: Go text (%v) -> the float.  (A dict keyed by TEXT: 0.0 and
    -0.0 are equal as Python floats and would share one slot of a set.)"""
    if isinstance(v, float):
        acc[go_float_str(v)] = v
    elif isinstance(v, dict):
        for x in v.values():
            floats_of(x, acc)
    elif isinstance(v, list):
        for x in v:
            floats_of(x, acc)


def gen_string(rng):
    return "".join(rng.choice(STR_PARTS) for _ in range(rng.randint(0, 4)))


def gen_value(rng, depth):
    r = rng.random()
    if depth <= 0 or r < 0.45:
        q = rng.random()
        if q < 0.35:
            return gen_string(rng)
        if q < 0.55:
            return rng.choice(INTS)
        if q < 0.8:
            return rng.choice(FLOATS) * rng.choice([1, 1, -1])
        return rng.choice([True, False, None, "", [], {}])
    if r < 0.75:
        return {gen_string(rng) if rng.random() < 0.6 else rng.choice("abcde"): gen_value(rng, depth - 1) for _ in range(rng.randint(0, 4))}
    return [gen_value(rng, depth - 1) for _ in range(rng.randint(0, 4))]


def enc_case(rng):
    return {"docs": [gen_value(rng, rng.randint(0, 3)) for _ in range(rng.choice([1, 1, 1, 2, 3, 0]))]}


def evaluate_enc(rep, cases):
    gops, mops = [], []
    for i, c in enumerate(cases):
        w = [to_wire(d) for d in c["docs"]]
        fl = {}
        for d in c["docs"]:
            floats_of(d, fl)
        jf = {k: go_json_float(f) for k, f in fl.items()}
        gops.append({"op": "format", "id": i, "format": "json", "encode": w})
        mops.append({"op": "jsonenc", "id": i, "docs": w, "jf": jf})
        gops.append({"op": "format", "id": f"p{i}", "format": "json-pretty", "encode": w})
        mops.append({"op": "jsonenc", "id": f"p{i}", "docs": w, "jf": jf, "pretty": True})
    go, mo = run_go(gops), run_model(mops)
    bad = 0
    for i, c in enumerate(cases):
        g, m = go.get(i) or {}, mo.get(i) or {}
        rep.case(["jsonenc", c["docs"]], True, sample={"json_encode": c["docs"]} if i < 2 else None)
        rep.traces += 1
        d = None
        if "bytes" not in g:
            d = f"implementation cannot write the value as JSON: {str(g)[:150]}"
        elif "ok" not in m:
            d = f"MODEL-PROBLEM {str(m)[:150]}"
        else:
            got = base64.b64decode(g["bytes"]).decode("utf-8", "surrogateescape")
            rep.count("jsonenc:bytes-compared")
            gp, mp = go.get(f"p{i}") or {}, mo.get(f"p{i}") or {}
            gotp = base64.b64decode(gp["bytes"]).decode("utf-8", "surrogateescape") if "bytes" in gp else None
            if got != m["ok"]:
                d = f"JSON output differs from the model's writer: impl={got!r:.120} model={m['ok']!r:.120}"
            elif gotp != mp.get("ok"):
                d = f"json-pretty output differs from the model's indented writer: impl={gotp!r:.160} model={str(mp.get('ok'))!r:.160}"
            else:
                # and an independent reader gets the value back
                try:
                    back = [json.loads(l) for l in got.split("\n") if l]
                    if back != json.loads(json.dumps(c["docs"])):
                        d = "an independent JSON parser reads something else from the output"
                except Exception as e:
                    d = f"an independent JSON parser rejects the output: {e}"
        if d:
            bad += 1
            if len(rep.violations) < 4:
                rep.disagreements_checked += 1
                rep.violation(f"json writer: {d}", {"case": {"jsonenc": c}, "impl": g, "model": m})
    return bad


# ---------------------------------------------------------------- decode
NUM_LITS = ["0", "-0", "1", "12", "-7", "1.5", "1.50", "0.1", "1e3", "1E3", "1e+3", "1e-3", "1.0", "-0.0", "1e400", "-1e400", "1e-400",
            "9223372036854775807", "9223372036854775808", "-9223372036854775808", "-9223372036854775809", "123456789012345678901234567890",
            "0.000001", "1e21", "1.0e0", "2.5E-5", "100", "4.0"]
BAD_LITS = ["01", "+1", ".5", "1.", "1e", "-", "0x10", "1_000", "NaN", "Infinity", "1e+", "--1", "1.e3", "00"]
STR_LITS = ['""', '"a"', '"\\n"', '"\\u0041"', '"\\u00e9"', '"\\ud83d\\ude00"', '"\\ud83d"', '"\\ude00x"', '"\\/"', '"\\b\\f\\r\\t\\\\\\""', '"é"', '" "',
            '"\\u001f"', '"\\u0000"', '"\\uD83D\\uDE00"', '"\\uFFFF"', '"tab\tin"', '"\\x41"', '"\\a"', '"unterminated', '"\\u12"', '"\\u12G4"', "'single'",
            '"$merge:a"', '"$required"', '"a.b"', '"\x7f"', '"\\ud83d\\u0041"']
WS = ["", "", " ", "\n", "\t", "\r\n", "  "]


def gen_text(rng, depth):
    r = rng.random()
    ws = lambda: rng.choice(WS)
    if depth <= 0 or r < 0.5:
        q = rng.random()
        if q < 0.3:
            return rng.choice(NUM_LITS)
        if q < 0.36:
            return rng.choice(BAD_LITS)
        if q < 0.7:
            return rng.choice(STR_LITS)
        return rng.choice(["true", "false", "null", "[]", "{}", "tru", "nul", "True", "[", "{", "]", "undefined"])
    if r < 0.78:
        n = rng.randint(0, 4)
        keys = [rng.choice(STR_LITS[:16] + ['"a"', '"b"', '"a"']) for _ in range(n)]
        body = ",".join(ws() + k + ws() + ":" + ws() + gen_text(rng, depth - 1) + ws() for k in keys)
        if rng.random() < 0.06:
            body += rng.choice([",", ",,", ":"])
        return "{" + body + "}"
    n = rng.randint(0, 4)
    body = ",".join(ws() + gen_text(rng, depth - 1) + ws() for _ in range(n))
    if rng.random() < 0.06:
        body += rng.choice([",", " 1", ":"])
    return "[" + body + "]"


def dec_case(rng):
    n = rng.choice([1, 1, 1, 2, 3, 0])
    sep = rng.choice(["\n", " ", "", "\n\n", "\t"])
    text = rng.choice(WS) + sep.join(gen_text(rng, rng.randint(0, 3)) for _ in range(n)) + rng.choice(WS)
    return {"text": text}


NUM_RE = re.compile(r"-?(?:0|[1-9][0-9]*)(?:\.[0-9]+)?(?:[eE][+-]?[0-9]+)?")


def fol_table(text):
    t = {}
    for lit in set(NUM_RE.findall(text)):
        try:
            f = float(lit)
        except ValueError:
            continue
        t[lit] = "" if math.isinf(f) else go_float_str(f)
    return t


def evaluate_dec(rep, cases):
    gops = [{"op": "decode", "id": i, "format": "json", "text": base64.b64encode(c["text"].encode("utf-8", "surrogatepass")).decode()} for i, c in enumerate(cases)]
    mops = [{"op": "jsondec", "id": i, "text": c["text"], "fol": fol_table(c["text"])} for i, c in enumerate(cases)]
    go, mo = run_go(gops), run_model(mops)
    bad = 0
    for i, c in enumerate(cases):
        g, m = go.get(i) or {}, mo.get(i) or {}
        rep.case(["jsondec", c["text"]], True, sample={"json_decode": c["text"]} if i < 2 else None)
        rep.traces += 1
        d = None
        if any(k in g for k in ("panic", "crash", "timeout", "oom")) or not g:
            d = f"implementation crashed / no answer: {str(g)[:150]}"
        elif "protocol_error" in m or not m:
            d = f"MODEL-PROBLEM {str(m)[:150]}"
        elif "docs" in g:
            rep.count("jsondec:ok")
            if "ok" not in m:
                d = f"bkl loads a JSON text the model's reader rejects ({m.get('err')})"
            elif m["ok"] != g["docs"]:
                d = f"bkl and the model's reader get different documents: impl={json.dumps(g['docs'])[:120]} model={json.dumps(m['ok'])[:120]}"
        else:
            rep.count(f"jsondec:impl-err:{g.get('err')}")
            if "ok" in m:
                d = f"bkl rejects ({g.get('err')}: {g.get('msg', '')[:80]}) a JSON text the model's reader accepts"
        if d:
            bad += 1
            if len(rep.violations) < 4:
                rep.disagreements_checked += 1
                rep.violation(f"json reader: {d}", {"case": {"jsondec": c}, "impl": g, "model": m})
    return bad


def run(rep, rng, n_enc, n_dec):
    bad = evaluate_enc(rep, [enc_case(rng) for _ in range(n_enc)])
    bad += evaluate_dec(rep, [dec_case(rng) for _ in range(n_dec)])
    return bad
