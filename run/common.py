"""Shared machinery of the checks: builds, the two drivers, comparison, shrinking, evidence."""
import fcntl
import hashlib
import json
import os
import random
import re
import shutil
import subprocess
import sys
import tempfile
import time
from concurrent.futures import ThreadPoolExecutor

VERIF = os.path.dirname(os.path.dirname(os.path.abspath(__file__)))
REPO = os.environ.get("VERIF_REPO", "/repo")
BUILD = os.path.join(VERIF, "build")
COVER = os.environ.get("VERIF_COVER") == "1"      # tools/coverage.py: instrumented binaries in a separate directory
BIN = os.path.join(BUILD, "bin-cover" if COVER else "bin")
LEAN = os.path.join(VERIF, "lean")
HARNESS = os.path.join(VERIF, "harness")
EVID = os.path.join(VERIF, "evidence")
REPLAYS = os.path.join(VERIF, "replays")
CORPUS = os.path.join(VERIF, "corpus")
NCPU = max(2, min(16, os.cpu_count() or 4))

GOENV = dict(os.environ, GOFLAGS="-mod=mod", GOPROXY="off", GOTOOLCHAIN="auto", CGO_ENABLED="0")
GOENV.pop("GOSUMDB", None)

TRUSTED_BASE = [
    "Lean 4.33 kernel; axioms allowed: propext, Classical.choice, Quot.sound (audited per run)",
    "hand-written Lean model /verif/lean/Bkl (tied to /repo by this run's correspondence + regenerated facts)",
    "Go harness /verif/harness (public API of package bkl only), Python orchestrator /verif/run",
    "third-party behaviour modelled, not verified: yaml.v3, go-toml/v2, encoding/json, strconv, fmt %v, os.Root, filepath",
]


def log(*a):
    print(*a, file=sys.stderr, flush=True)


class Lock:
    def __init__(self, name):
        os.makedirs(BUILD, exist_ok=True)
        self.path = os.path.join(BUILD, name + ".lock")

    def __enter__(self):
        self.fh = open(self.path, "w")
        fcntl.flock(self.fh, fcntl.LOCK_EX)
        return self

    def __exit__(self, *a):
        fcntl.flock(self.fh, fcntl.LOCK_UN)
        self.fh.close()


def sh(cmd, cwd=None, env=None, timeout=3600, check=True):
    r = subprocess.run(cmd, cwd=cwd, env=env, capture_output=True, text=True, timeout=timeout)
    if check and r.returncode != 0:
        raise RuntimeError(f"command failed: {cmd}\n{r.stdout}\n{r.stderr}")
    return r


# ---------------------------------------------------------------- builds

def build_go(cover=False, race=False):
    """Build the harness and the real CLIs from /repo's working tree. Returns dict of failures."""
    os.makedirs(BIN, exist_ok=True)
    fails = {}
    with Lock("gobuild"):
        shutil.copyfile(os.path.join(REPO, "go.sum"), os.path.join(HARNESS, "go.sum"))
        # the harness module replaces github.com/gopatchy/bkl by REPO
        gomod = open(os.path.join(HARNESS, "go.mod")).read()
        want = re.sub(r"replace github.com/gopatchy/bkl => .*", f"replace github.com/gopatchy/bkl => {REPO}", gomod)
        if want != gomod:
            open(os.path.join(HARNESS, "go.mod"), "w").write(want)
        flags = ["-tags", "verif"]
        if COVER:
            flags += ["-cover", "-coverpkg=github.com/gopatchy/bkl/..."]
        if COVER:
            # the coverage runtime only writes counters when the main package is instrumented, and it cannot see
            # packages of another module: build the harness inside a scratch copy of the repository's module
            src = os.path.join(BUILD, "cover-src")
            sh(["rsync", "-a", "--delete", "--exclude", ".git", REPO + "/", src + "/"])
            os.makedirs(os.path.join(src, "cmd", "zzbklgo"), exist_ok=True)
            shutil.copyfile(os.path.join(HARNESS, "cmd", "bklgo", "main.go"), os.path.join(src, "cmd", "zzbklgo", "main.go"))
            r = sh(["go", "build", "-tags", "verif", "-cover", "-coverpkg=./...", "-o", os.path.join(BIN, "bklgo"), "./cmd/zzbklgo"],
                   cwd=src, env=GOENV, check=False)
        else:
            r = sh(["go", "build"] + flags + ["-o", os.path.join(BIN, "bklgo"), "./cmd/bklgo"], cwd=HARNESS, env=GOENV, check=False)
        if r.returncode != 0:
            fails["bklgo"] = r.stderr[-3000:]
        for extra in ("extract", "recorder", "gotrans"):
            if os.path.isdir(os.path.join(HARNESS, "cmd", extra)):
                r = sh(["go", "build", "-o", os.path.join(BIN, extra), "./cmd/" + extra], cwd=HARNESS, env=GOENV, check=False)
                if r.returncode != 0:
                    fails[extra] = r.stderr[-3000:]
        if race:
            env = dict(GOENV, CGO_ENABLED="1")
            r = sh(["go", "build", "-race"] + flags + ["-o", os.path.join(BIN, "bklgo-race"), "./cmd/bklgo"], cwd=HARNESS, env=env, check=False)
            if r.returncode != 0:
                fails["bklgo-race"] = r.stderr[-3000:]
        for cli in ("bkl", "bkld", "bkli", "bklr", "bklb"):
            r = sh(["go", "build"] + flags + ["-o", os.path.join(BIN, cli), "./cmd/" + cli], cwd=REPO, env=GOENV, check=False)
            if r.returncode != 0:
                fails[cli] = r.stderr[-3000:]
    return fails


def build_lean(targets):
    """lake build the given targets; returns (ok, output)."""
    with Lock("lake"):
        r = sh(["lake", "build"] + list(targets), cwd=LEAN, check=False, timeout=3600)
    return r.returncode == 0, (r.stdout + r.stderr)


TIER = "quick"      # set by main.py


FORBIDDEN = re.compile(r"\bsorry\b|\badmit\b|^\s*axiom\s|native_decide|bv_decide|implemented_by|\bunsafe\s|maxHeartbeats\s+0")
ALLOWED_AXIOMS = {"propext", "Classical.choice", "Quot.sound"}


def strip_lean_comments(src):
    src = re.sub(r"/-.*?-/", "", src, flags=re.S)
    src = re.sub(r"--.*", "", src)
    return src


def grep_forbidden(files):
    hits = []
    for f in files:
        if not os.path.exists(f):
            continue
        for n, line in enumerate(strip_lean_comments(open(f).read()).split("\n"), 1):
            if FORBIDDEN.search(line):
                hits.append(f"{os.path.relpath(f, LEAN)}:{n}: {line.strip()}")
    return hits


# Fact modules per property.  F10 (dispatch order) is split by source file group so that a change in one file
# disturbs only the checks that rest on it: Files=file.go, Merge=match.go/merge.go/parser.go, Refs=get.go/process1.go,
# Output=output.go, Eval=process2.go/repeat.go, Escape=finalize.go/validate.go.
FACTS = {"C01": ["DispatchMerge"], "C02": ["DispatchMerge"], "C03": ["Formats", "DispatchFiles", "DispatchMerge", "StateFiles"], "C04": ["Formats"], "C05": ["Formats"],
         "C06": ["Literals", "DispatchEscape"], "C07": ["Literals", "DispatchEscape", "DispatchMerge"], "C08": ["Safety"], "C09": ["Ranges", "StateParser", "StateFiles"],
         "C10": ["DispatchRefs"], "C11": ["DispatchOutput"], "C12": ["DispatchEval"], "C13": ["DispatchEval"], "C14": ["DispatchEval"],
         "C15": ["StateTools"], "C16": ["StateTools"], "C17": ["StateTools"], "C18": ["Formats", "Reads", "StateParser", "StateFiles"], "C19": ["StateParser"],
         "C20": ["Formats", "StateTools"]}
# translation-equivalence modules (BklProofs/Facts/Trans<Unit>.lean over the regenerated Generated/Trans/<Unit>.lean):
# "what the Go source says now = what the model says", per property that rests on that source file
TRANS = {"C01": ["TransMerge", "TransMatch", "TransUtil", "TransFilter", "SourceC01"], "C02": ["TransMerge", "TransMatch", "SourceMatch"],
         "C06": ["TransValidate", "TransFinalize", "SourceC06"], "C07": ["TransValidate", "TransMerge", "SourceC07"], "C09": ["TransFinalize"],
         "C10": ["TransMatch", "TransMerge", "TransGet", "SourceC10"], "C11": ["TransUtil", "TransFilter", "TransOutput", "SourceC11"],
         "C12": ["TransFilter", "TransRepeat", "TransProcess2", "SourceC12"], "C13": ["TransRepeat", "TransGet", "TransProcess2", "SourceC13"],
         "C14": ["TransEncode", "TransEncode2", "TransProcess2", "SourceC14"], "C15": ["TransBkld", "TransMerge", "SourceC15"], "C16": ["TransBkli", "SourceC16"],
         "C17": ["TransBklr", "TransMerge", "SourceC17"], "C19": ["TransUtil", "TransMerge"]}
for _p, _ms in TRANS.items():
    FACTS[_p] = FACTS.get(_p, []) + _ms


def audit_axioms(pid):
    """Run the audit file for a property; returns (theorems{name: [axioms]}, raw output, ok)."""
    audit = os.path.join("BklProofs", "Audit", pid + ".lean")
    if not os.path.exists(os.path.join(LEAN, audit)):
        return {}, "no audit file", False
    with Lock("lake"):
        r = sh(["lake", "env", "lean", audit], cwd=LEAN, check=False, timeout=1200)
    out = r.stdout + r.stderr
    thms = {}
    for m in re.finditer(r"'([^']+)' depends on axioms: \[([^\]]*)\]", out):
        thms[m.group(1)] = [a.strip() for a in m.group(2).split(",") if a.strip()]
    for m in re.finditer(r"'([^']+)' does not depend on any axioms", out):
        thms[m.group(1)] = []
    ok = r.returncode == 0 and all(set(a) <= ALLOWED_AXIOMS for a in thms.values()) and len(thms) > 0
    return thms, out, ok


def lean_str(s):
    return json.dumps(s, ensure_ascii=False)


def gen_facts():
    """Run the extractor on REPO's working tree and (re)write lean/Generated/Facts.lean when the facts changed."""
    exe = os.path.join(BIN, "extract")
    if not os.path.exists(exe):
        return None
    r = sh([exe, REPO], check=False, timeout=300)
    if r.returncode != 0:
        return None
    f = json.loads(r.stdout)
    os.makedirs(BUILD, exist_ok=True)
    open(os.path.join(BUILD, "facts.json"), "w").write(r.stdout)

    def sites(xs):
        return "[" + ", ".join(f"({lean_str(x['file'])}, {lean_str(x['func'])}, {lean_str(x['what'])})" for x in (xs or [])) + "]"
    recog = [l for l in (f.get("dollarLits") or []) if " " not in l and "%" not in l and "=" not in l]
    text = "\n".join([
        "/- GENERATED by /verif/harness/cmd/extract from /repo's current source. Do not edit. -/",
        "namespace Bkl.Facts",
        "def formatTable : List (String × String × String) := [" + ", ".join(
            f"({lean_str(a)}, {lean_str(b)}, {lean_str(c)})" for a, b, c in (f.get("formatTable") or [])) + "]",
        "def rawMapRanges : List (String × String × String) := " + sites(f.get("rawMapRanges")),
        "def typeAsserts : List (String × String × String) := " + sites(f.get("typeAsserts")),
        "def pkgVarKinds : List String := [" + ", ".join(lean_str(x["what"]) for x in (f.get("pkgVars") or [])) + "]",
        "def pkgVarWrites : List (String × String × String) := " + sites(f.get("pkgVarWrites")),
        "def fileReads : List (String × String × String) := " + sites(f.get("fileReads")),
        "def recogniserLits : List String := [" + ", ".join(lean_str(x) for x in recog) + "]",
        "def depthGuards : List (String × String × String) := " + sites(f.get("depthGuards")),
        "def cliOptions : List (String × String × String) := " + sites(f.get("cliOptions")),
        "def goStatements : List (String × String × String) := " + sites(f.get("goStatements")),
        "def structFields : List (String × String × String) := " + sites(sorted(f.get("structFields") or [], key=lambda x: (x["file"], x["func"], x["what"]))),
        "def toolState : List (String × String × String) := " + sites(f.get("toolState")),
        "def directiveSeq : List (String × String × String) := " + sites(sorted(f.get("directiveSeq") or [], key=lambda x: (x["file"], x["func"]))),
        "def unicodeLower : List (Nat × Nat × Nat) := [" + ", ".join(f"({a}, {b}, {c})" for a, b, c in (f.get("unicodeLower") or [])) + "]",
        "end Bkl.Facts", ""])
    path = os.path.join(LEAN, "Generated", "Facts.lean")
    os.makedirs(os.path.dirname(path), exist_ok=True)
    with Lock("lake"):
        old = open(path).read() if os.path.exists(path) else None
        if old != text:
            open(path, "w").write(text)
    f["_gotrans"] = gen_trans()
    return f


def gen_trans():
    """Translate the listed Go functions of REPO's working tree to Lean (harness/cmd/gotrans ->
    lean/Generated/Trans/<Unit>.lean, rewritten only when the text changed).  Returns the translator's
    complaints (functions that left the translatable fragment, or disappeared): a non-empty list is a
    broken obligation of every property whose theorems rest on that unit."""
    exe = os.path.join(BIN, "gotrans")
    if not os.path.exists(exe):
        return ["translator binary missing (run setup.sh)"]
    with Lock("lake"):
        r = sh([exe, REPO, os.path.join(LEAN, "Generated", "Trans")], check=False, timeout=300)
    return [l for l in (r.stderr or "").split("\n") if l.strip()] if r.returncode != 0 else []


def proof_step(pid, extra_targets=()):
    """Kernel-check the property's theorems (and the fact theorems over the regenerated tables).
    Returns a dict for evidence + a list of broken obligations."""
    t0 = time.time()
    broken = []
    facts = gen_facts()
    if facts is None:
        broken.append({"obligation": "fact extraction from /repo (harness/cmd/extract)", "detail": "extractor failed"})
    ok, out = build_lean(["BklProofs." + pid] + list(extra_targets))
    if not ok:
        errs = [l for l in out.split("\n") if "error" in l][:20]
        broken.append({"obligation": f"lake build BklProofs.{pid}", "detail": errs})
    thms, aout, aok = ({}, "", False)
    if ok:
        thms, aout, aok = audit_axioms(pid)
        if not aok:
            broken.append({"obligation": f"axiom audit of BklProofs.{pid}", "detail": aout[-2000:]})
    for g in FACTS.get(pid, []):
        fok, fout = build_lean(["BklProofs.Facts." + g])
        if not fok:
            errs = [l for l in fout.split("\n") if "error" in l][:10]
            if g.startswith("Source"):
                broken.append({"obligation": f"source-level laws BklProofs.Facts.{g}: a property theorem composed with the translation equivalence "
                                             f"no longer holds of the Lean translation of /repo's current source", "detail": ((facts or {}).get("_gotrans") or []) + errs})
            elif g.startswith("Trans"):
                broken.append({"obligation": f"translation equivalence BklProofs.Facts.{g}: the Lean translation of /repo's current source "
                                             f"(Generated/Trans/{g[5:]}.lean, harness/cmd/gotrans) is no longer proved equal to the model",
                               "detail": ((facts or {}).get("_gotrans") or []) + errs})
            else:
                broken.append({"obligation": f"fact theorems BklProofs.Facts.{g} over the regenerated Generated/Facts.lean", "detail": errs})
            continue
        fth, fo, fk = audit_axioms("Facts" + g)
        thms.update(fth)
        if not fk:
            broken.append({"obligation": f"axiom audit of BklProofs.Facts.{g}", "detail": fo[-1000:]})
            aok = False
    files = [os.path.join(LEAN, "BklProofs", pid + ".lean")]
    for sub in ("Lemmas", "Facts"):
        for root, _, fs in os.walk(os.path.join(LEAN, "BklProofs", sub)):
            files += [os.path.join(root, f) for f in fs if f.endswith(".lean")]
    for root, _, fs in os.walk(os.path.join(LEAN, "Bkl")):
        files += [os.path.join(root, f) for f in fs if f.endswith(".lean")]
    hits = grep_forbidden(files)
    if hits:
        broken.append({"obligation": "no sorry/admit/axiom/native_decide in model and proofs", "detail": hits})
    checker = None
    if TIER == "thorough" and ok:
        # the toolchain's independent re-checker replays the compiled declarations of the property's modules in a fresh kernel
        mods = ["BklProofs." + pid] + ["BklProofs.Facts." + g for g in FACTS.get(pid, [])]
        with Lock("lake"):
            r = sh(["lake", "env", "leanchecker"] + mods, cwd=LEAN, check=False, timeout=3600)
        checker = {"cmd": "lake env leanchecker " + " ".join(mods), "rc": r.returncode}
        if r.returncode != 0:
            broken.append({"obligation": "leanchecker replay of " + " ".join(mods), "detail": (r.stdout + r.stderr)[-1500:]})
    return {
        "theorems": thms,
        "obligations": max(1, len(thms)) if ok else max(1, len(thms)),
        "discharged": len([t for t, a in thms.items() if set(a) <= ALLOWED_AXIOMS]) if ok and aok else 0,
        "checker_cmd": f"cd /verif/lean && lake build BklProofs.{pid} && lake env lean BklProofs/Audit/{pid}.lean",
        "proof_wall_s": round(time.time() - t0, 1),
        "leanchecker": checker,
    }, broken


# ---------------------------------------------------------------- drivers

def _limit_mem(mb):
    import resource

    def f():
        resource.setrlimit(resource.RLIMIT_AS, (mb << 20, mb << 20))
    return f


def _run_lines(cmd, lines, env=None, timeout=600, mem_mb=None):
    try:
        p = subprocess.run(cmd, input="\n".join(lines) + "\n", capture_output=True, text=True, env=env, timeout=timeout,
                           preexec_fn=_limit_mem(mem_mb) if mem_mb else None)
    except subprocess.TimeoutExpired as e:
        out = e.stdout.decode("utf-8", "replace") if isinstance(e.stdout, bytes) else (e.stdout or "")
        return -9, out, "TIMEOUT"
    return p.returncode, p.stdout, p.stderr


def run_model(ops):
    """ops: list of dicts with unique 'id'. Returns {id: result}."""
    exe = os.path.join(LEAN, ".lake", "build", "bin", "bklmodel")
    res = {}
    if not ops:
        return res
    shards = [ops[i::NCPU] for i in range(NCPU)]

    def work(shard):
        # The model is total but mirrors the implementation's exponential blow-up on branching
        # self-references (known finding KF-C08-1): run it under a time and memory budget and
        # report the op that exhausts it as outside the modelled budget.
        r = {}
        todo = list(shard)
        budget = 120
        while todo:
            rc, out, err = _run_lines([exe], [json.dumps(o, ensure_ascii=False) for o in todo], timeout=budget, mem_mb=4000)
            for line in out.split("\n"):
                if line.strip():
                    try:
                        j = json.loads(line)
                    except Exception:
                        continue
                    r[j.get("id")] = j
            rest = [o for o in todo if o["id"] not in r]
            if not rest:
                break
            r[rest[0]["id"]] = {"id": rest[0]["id"], "unmodelled": True, "model_budget": True}
            todo = rest[1:]
            budget = 60
        return r

    with ThreadPoolExecutor(NCPU) as ex:
        for r in ex.map(work, shards):
            res.update(r)
    return res


def run_go(ops, binary="bklgo", timeout_ms=20000, mem_mb=3000):
    """Run ops through the real library. A crash (stack overflow, fatal error) kills the harness:
    the op being executed is marked {'crash': ...} and the rest are re-run in a fresh process."""
    exe = os.path.join(BIN, binary)
    res = {}
    if not ops:
        return res
    scratch = mktemp_dir("verif-go-")       # the harness's temporary files: removed here even when it is killed
    try:
        return _run_go(ops, exe, timeout_ms, mem_mb, scratch)
    finally:
        shutil.rmtree(scratch, ignore_errors=True)


def _run_go(ops, exe, timeout_ms, mem_mb, scratch):
    env = dict(os.environ, BKLGO_TIMEOUT_MS=str(timeout_ms), BKLGO_MEM_MB=str(mem_mb), GOMAXPROCS="4", TMPDIR=scratch)
    # a -race build stops at the first report: the op being executed is then the unanswered one (the culprit below)
    env["GORACE"] = "halt_on_error=1 exitcode=66"
    res = {}
    n = min(NCPU, max(1, len(ops) // 50 + 1))
    shards = [ops[i::n] for i in range(n)]

    def work(shard):
        r = {}
        todo = list(shard)
        while todo:
            rc, out, err = _run_lines([exe], [json.dumps(o, ensure_ascii=False) for o in todo], env=env, timeout=3600)
            got = 0
            for line in out.split("\n"):
                if line.strip():
                    try:
                        j = json.loads(line)
                    except Exception:
                        continue
                    r[j.get("id")] = j
                    got += 1
            done_ids = set(r)
            rest = [o for o in todo if o["id"] not in done_ids]
            if not rest:
                break
            # the harness exits by itself after reporting a timeout / memory overrun: the culprit
            # has an answer already and the remaining ops just need a fresh process
            if rc in (3, 4) and any(("timeout" in r.get(o["id"], {}) or "oom" in r.get(o["id"], {})) for o in todo if o["id"] in done_ids):
                # a tree that hangs on (nearly) every input would otherwise cost one deadline per op: after a handful of
                # expired deadlines in one shard the remaining ops are not run (the expired ones are the finding)
                if sum(1 for x in r.values() if isinstance(x, dict) and x.get("timeout")) >= 6:
                    for o in rest:
                        r[o["id"]] = {"id": o["id"], "skipped": "too many ops of this run timed out"}
                    break
                todo = rest
                continue
            # process died: the first unanswered op is the culprit
            culprit = rest[0]
            kind = "crash"
            if "stack overflow" in err or "goroutine stack exceeds" in err:
                kind = "stack_overflow"
            elif "out of memory" in err:
                kind = "oom"
            if "WARNING: DATA RACE" in err:
                kind = "race"
            r[culprit["id"]] = {"id": culprit["id"], kind: True, "crash": True, "rc": rc, "stderr": (err[err.find("WARNING: DATA RACE"):][:2500] if kind == "race" else err[:600] + " ... " + err[-300:])}
            todo = rest[1:]
        return r

    with ThreadPoolExecutor(n) as ex:
        for r in ex.map(work, shards):
            res.update(r)
    # A deadline that expired on a loaded machine is not a hang: every op that timed out is run again, alone,
    # with four times the deadline, before anybody calls it a violation.
    slow = [o for o in ops if isinstance(res.get(o["id"]), dict) and res[o["id"]].get("timeout")]
    if slow and not os.environ.get("VERIF_NO_TIMEOUT_RETRY"):
        env2 = dict(env, BKLGO_TIMEOUT_MS=str(timeout_ms * 4))
        for o in slow[:8]:
            rc, out, err = _run_lines([exe], [json.dumps(o, ensure_ascii=False)], env=env2, timeout=3600)
            for line in out.split("\n"):
                if line.strip():
                    try:
                        j = json.loads(line)
                    except Exception:
                        continue
                    if j.get("id") == o["id"]:
                        if "timeout" not in j:
                            j["retried_after_timeout"] = True
                        res[o["id"]] = j
    return res


# ---------------------------------------------------------------- result comparison

def status_of(r):
    """Reduce a step/op result to ('ok', value) / ('err', class) / ('bad', kind)."""
    if r is None:
        return ("bad", "missing")
    for k in ("panic", "crash", "timeout", "oom", "stack_overflow", "model_crash", "protocol_error", "nondet"):
        if k in r:
            return ("bad", k)
    if "unmodelled" in r:
        return ("unmodelled", None)
    if "skipped" in r:
        return ("skipped", None)
    if "err" in r:
        return ("err", r["err"])
    if "none" in r:
        return ("ok", "__none__")
    if "ok" in r:
        return ("ok", r["ok"])
    if "bytes" in r:
        return ("ok", r["bytes"])
    if "shared" in r:
        return ("ok", r["shared"])
    return ("bad", "unknown:" + json.dumps(r)[:100])


def compare_results(go, model, compare_class=False):
    """Returns None if they agree, else a short description."""
    gs, ms = status_of(go), status_of(model)
    if ms[0] == "unmodelled":
        return None
    if gs[0] == "bad":
        return f"implementation {gs[1]}"
    if ms[0] == "bad":
        return f"MODEL-PROBLEM {ms[1]}"
    if gs[0] != ms[0]:
        return f"status differs: impl={gs[0]}:{gs[1] if gs[0]=='err' else ''} model={ms[0]}:{ms[1] if ms[0]=='err' else ''}"
    if gs[0] == "err":
        if compare_class and gs[1] != ms[1]:
            return f"error class differs: impl={gs[1]} model={ms[1]}"
        return None
    if gs[0] == "ok" and gs[1] != ms[1]:
        return "value differs"
    return None


def compare_hist(go, model, compare_class=False):
    """Compare per-step results of a hist op. Returns (None|desc, n_unmodelled)."""
    gs, ms = status_of(go), status_of(model)
    if "res" not in (go or {}):
        if gs[0] == "skipped":
            return None, 0          # not run: too many ops of the same run had already timed out (those are reported)
        if gs[0] == "bad":
            return f"implementation {gs[1]}", 0
        return f"implementation returned {json.dumps(go)[:200]}", 0
    if "retained_changed" in go:
        return f"the bytes returned by Output call #{go['retained_changed']} changed after a later call (returned memory is reused)", 0
    if "res" not in (model or {}):
        return f"MODEL-PROBLEM {json.dumps(model)[:200]}", 0
    unm = 0
    for i, (g, m) in enumerate(zip(go["res"], model["res"])):
        if status_of(m)[0] == "unmodelled":
            unm += 1
            # after an unmodelled *merge* nothing later is comparable
            continue
        d = compare_results(g, m, compare_class)
        if d:
            return f"step {i}: {d}", unm
    return None, unm


# ---------------------------------------------------------------- shrinking

def shrink_candidates(v):
    """Yield smaller variants of a Python tree (dict/list/scalars)."""
    if isinstance(v, dict):
        for k in list(v):
            w = dict(v)
            del w[k]
            yield w
        for k in list(v):
            for c in shrink_candidates(v[k]):
                if c is None:
                    continue
                w = dict(v)
                w[k] = c
                yield w
    elif isinstance(v, list):
        for i in range(len(v)):
            yield v[:i] + v[i + 1:]
        for i in range(len(v)):
            for c in shrink_candidates(v[i]):
                if c is None:
                    continue
                yield v[:i] + [c] + v[i + 1:]
    elif isinstance(v, str):
        if len(v) > 1:
            yield v[: len(v) // 2]
            yield v[1:]
    elif isinstance(v, bool):
        return
    elif isinstance(v, int):
        if v not in (0, 1):
            yield 1
    elif isinstance(v, float):
        if v != 0.5:
            yield 0.5


def shrink(case, fails, budget=300):
    """Greedy delta debugging: `case` is any JSON-like Python value; `fails(case)` re-runs the check."""
    cur = case
    spent = 0
    progress = True
    while progress and spent < budget:
        progress = False
        for cand in shrink_candidates(cur):
            if cand is None:
                continue
            spent += 1
            if spent > budget:
                break
            try:
                if fails(cand):
                    cur = cand
                    progress = True
                    break
            except Exception:
                continue
    return cur


# ---------------------------------------------------------------- evidence & reporting

class Report:
    """Collects what a check run did; writes evidence; prints VIOLATION / KNOWN-FINDING lines."""

    def __init__(self, pid, tier, seed):
        self.pid, self.tier, self.seed = pid, tier, seed
        self.t0 = time.time()
        self.evaluations = 0
        self.nontrivial = set()
        self.samples = []
        self.hist = {}
        self.violations = []       # (desc, replay_path)
        self.known = []
        self.proof = None
        self.broken = []
        self.extra = {}
        self.assumptions = []
        self.rule = ""
        self.traces = 0
        self.disagreements_checked = 0

    def count(self, key, n=1):
        self.hist[key] = self.hist.get(key, 0) + n

    def case(self, canon_obj, nontrivial, sample=None):
        self.evaluations += 1
        if nontrivial:
            h = hashlib.sha1(json.dumps(canon_obj, sort_keys=True, ensure_ascii=False, default=str).encode()).hexdigest()
            self.nontrivial.add(h)
        if sample is not None and len(self.samples) < 5:
            self.samples.append(sample)

    def write_replay(self, payload, tag=""):
        os.makedirs(REPLAYS, exist_ok=True)
        n = len(self.violations) + len(self.known)
        path = os.path.join(REPLAYS, f"{self.pid}-{self.seed}-{tag}{n}.json")
        with open(path, "w") as fh:
            json.dump(payload, fh, indent=1, ensure_ascii=False, default=str)
        return path

    def violation(self, desc, payload, no_input=False):
        path = self.write_replay(dict(payload, property=self.pid, what=desc, tier=self.tier, seed=self.seed))
        self.violations.append((desc, path, no_input))

    def known_finding(self, kf, desc):
        self.known.append((kf, desc))

    def finish(self):
        wall = time.time() - self.t0
        cov = {
            "evaluations": max(self.evaluations, 0),
            "distinct_nontrivial": len(self.nontrivial),
            "rule": self.rule,
            "samples": self.samples,
            "traces_validated_against_impl": self.traces,
            "disagreements_checked": self.disagreements_checked,
            "histograms": self.hist,
            "trusted_base": TRUSTED_BASE,
        }
        if self.proof:
            cov.update({
                "obligations": self.proof["obligations"] + len(self.broken),
                "discharged": self.proof["discharged"],
                "checker_cmd": self.proof["checker_cmd"],
                "theorems": self.proof["theorems"],
                "proof_wall_s": self.proof["proof_wall_s"],
                "leanchecker": self.proof.get("leanchecker"),
                "broken_obligations": self.broken,
            })
        cov.update(self.extra)
        ev = {
            "property_id": self.pid,
            "tier": self.tier,
            "seed": self.seed,
            "level": "proof",
            "coverage": cov,
            "assumptions": self.assumptions,
            "wall_s": round(wall, 2),
            "violations": len(self.violations),
            "known_findings": [f"{k}: {d}" for k, d in self.known],
        }
        os.makedirs(EVID, exist_ok=True)
        tmp = os.path.join(EVID, f".{self.pid}.json.tmp")
        with open(tmp, "w") as fh:
            json.dump(ev, fh, indent=1, ensure_ascii=False, default=str)
        os.replace(tmp, os.path.join(EVID, f"{self.pid}.json"))
        seen = set()
        for k, d in self.known:
            if k not in seen:
                print(f"KNOWN-FINDING: property={self.pid} {k}: {d}")
                seen.add(k)
        for desc, path, no_input in self.violations[:20]:
            log(f"  violation: {desc}")
            print(f"VIOLATION property={self.pid} replay={path}" + (" no-failing-input-found" if no_input else ""))
        log(f"[{self.pid}] tier={self.tier} seed={self.seed} evaluations={self.evaluations} "
            f"nontrivial={len(self.nontrivial)} violations={len(self.violations)} known={len(self.known)} wall={wall:.1f}s")
        return 1 if self.violations else 0


def load_known():
    p = os.path.join(VERIF, "known_findings.json")
    if os.path.exists(p):
        return json.load(open(p))
    return {"open": [], "fixed": []}


def load_corpus(pid):
    d = os.path.join(CORPUS, pid)
    out = []
    if os.path.isdir(d):
        for f in sorted(os.listdir(d)):
            if f.endswith(".json"):
                try:
                    out.append((f, json.load(open(os.path.join(d, f)))))
                except Exception as e:
                    log("bad corpus file", f, e)
    return out


def mktemp_dir(prefix="verif-"):
    return tempfile.mkdtemp(prefix=prefix, dir=os.environ.get("TMPDIR", "/tmp"))
