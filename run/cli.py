"""Running the real CLIs on materialised files."""
import os
import shutil
import subprocess
from concurrent.futures import ThreadPoolExecutor
from common import BIN, NCPU, mktemp_dir


def run_cli(tool, args, cwd, env=None, timeout=30, stdin=None, _retry=False):
    e = {"PATH": BIN + ":/usr/bin:/bin", "HOME": cwd}
    if os.environ.get("GOCOVERDIR"):
        e["GOCOVERDIR"] = os.environ["GOCOVERDIR"]     # tools/coverage.py
    if env:
        e.update(env)
    try:
        p = subprocess.run([os.path.join(BIN, tool)] + list(args), cwd=cwd, env=e, capture_output=True, timeout=timeout, input=stdin)
        return {"rc": p.returncode, "out": p.stdout.decode("utf-8", "replace"), "err": p.stderr.decode("utf-8", "replace"), "out_bytes": p.stdout}
    except subprocess.TimeoutExpired:
        if not _retry:
            # an expired deadline on a loaded machine is not a hang: once more with four times the time
            return run_cli(tool, args, cwd, env=env, timeout=timeout * 4, stdin=stdin, _retry=True)
        return {"rc": None, "out": "", "err": "TIMEOUT", "timeout": True, "out_bytes": b""}


def write_files(d, files):
    for name, content in files.items():
        path = os.path.join(d, name)
        os.makedirs(os.path.dirname(path), exist_ok=True)
        mode = "wb" if isinstance(content, bytes) else "w"
        with open(path, mode) as fh:
            fh.write(content)


class Workdir:
    def __enter__(self):
        self.path = mktemp_dir("verif-cli-")
        return self.path

    def __exit__(self, *a):
        shutil.rmtree(self.path, ignore_errors=True)


def pmap(fn, items, workers=NCPU):
    with ThreadPoolExecutor(workers) as ex:
        return list(ex.map(fn, items))


def bad_shape(r):
    """C08's CLI contract: rc 0 => no stderr requirement but stdout complete; rc != 0 => stdout empty, stderr non-empty.
    Returns a description when the invocation crashed, hung, or broke the contract."""
    if r.get("timeout"):
        return "hang (timeout)"
    if r["rc"] is None:
        return "no exit status"
    if r["rc"] < 0 or r["rc"] == 2 and ("panic:" in r["err"] or "fatal error:" in r["err"]):
        return "crash: " + r["err"][:200]
    if "panic:" in r["err"] or "fatal error:" in r["err"] or "goroutine " in r["err"]:
        return "crash: " + r["err"][:200]
    if r["rc"] != 0 and r["out"]:
        return "non-zero exit with output on stdout"
    if r["rc"] != 0 and not r["err"].strip():
        return "non-zero exit without a diagnostic"
    return None
